#!/usr/bin/env python3
"""usage: seed_save.py <ID> <k> <newk> <features> <detected csv|-> <change> <needs> [notes]
Copies /tmp/mut/<ID>/MUTANTS/m<k>/ to /verif/seeded/<ID>-m<newk>/ and writes meta.json; the confirmation line is
taken from /tmp/confirm_<ID>.log (written by tools/seed_confirm.sh)."""
import json, os, re, shutil, sys
ID,k,newk,feat,det,change,needs=sys.argv[1:8]
notes=sys.argv[8] if len(sys.argv)>8 else ""
src=f"/tmp/mut/{ID}/MUTANTS/m{k}"
dst=f"/verif/seeded/{ID}-m{newk}"
os.makedirs(dst,exist_ok=True)
for f in ("patch.diff","demo.rs","notes.md"):
    shutil.copy(f"{src}/{f}",f"{dst}/{f}")
line=[l for l in open(f"/tmp/confirm_{ID}.log") if l.startswith("RESULT") and f"/m{k} " in l][-1]
m=re.search(r"demo_without_patch_exit=(\d+) demo_with_patch_exit=(\d+) baseline: baseline: (\d+/\d+)",line)
meta={"property":ID,"round":int(os.environ.get("ROUND","4")),"change":change,"needs_to_manifest":needs,
 "demo":{"place_at":f"<worktree>/fe2o3-amqp/tests/mutant_demo_{k}.rs","cmd":f"cargo test -p fe2o3-amqp --features {feat} --test mutant_demo_{k} --offline"},
 "confirmed":{"how":"tools/seed_confirm.sh (confirm_mutant.sh in the sub-agent's scratch worktree moved to the /repo HEAD of the time): patch applies, baseline tests pass with the patch, demo exits 0 without the patch and non-zero with it",
   "baseline_with_patch":m.group(3),"demo_without_patch_exit":int(m.group(1)),"demo_with_patch_exit":int(m.group(2))},
 "detected_by_quick_checks":[] if det=="-" else det.split(","),
 "origin":"independent sub-agent given only the property text and a scratch worktree (round " + os.environ.get("ROUND","4") + ": combinations, orderings, clean-up paths, two places that must agree)"}
if notes: meta["notes"]=notes
json.dump(meta,open(f"{dst}/meta.json","w"),indent=1,ensure_ascii=False)
print("saved",dst,m.groups())
