#!/bin/bash
# Re-runs every seeded change (seeded/<id>-m<k>/patch.diff) against the quick checks that are recorded as catching it,
# in a scratch worktree (never /repo).  Writes seeded/REGRESS.md: one line per change with the exit codes.
# usage: tools/mutants_regress.sh [name-glob]      (takes ~2 min per change: the library is rebuilt each time)
cd "$(dirname "$0")/.." || exit 2
OUT=seeded/REGRESS.md
echo "# seeded changes re-run against the quick checks ($(date -u +%F' '%R) UTC, /repo $(git -C /repo rev-parse --short HEAD))" > $OUT
echo "" >> $OUT
echo "| change | checks run | result |" >> $OUT
echo "|---|---|---|" >> $OUT
for d in seeded/${1:-*}/; do
  n=$(basename $d)
  [ -f $d/meta.json ] || continue
  ids=$(python3 -c "import json;print(' '.join(json.load(open('$d/meta.json'))['detected_by_quick_checks']))")
  [ -z "$ids" ] && ids=$(python3 -c "import json;print(json.load(open('$d/meta.json'))['property'])")
  res=$(tools/try_mutant_wt.sh $d/patch.diff $ids 2>&1 | grep "^==\|does not apply" | sed 's/== //' | tr '\n' ';')
  echo "| $n | $ids | $res |" >> $OUT
  echo "$n: $res"
done
