#!/usr/bin/env python3
"""Prints the prompt for a mutant-seeding sub-agent: only the property text and its scratch worktree."""
import json, sys
pid = sys.argv[1]
wt = sys.argv[2]
n = sys.argv[3] if len(sys.argv) > 3 else "2"
p = [json.loads(l) for l in open('/verif/properties.jsonl') if json.loads(l)['id'] == pid][0]
print(f"""You are helping test a verification effort by playing the role of a careless (or subtly wrong) contributor to the Rust project minghuaw/fe2o3-amqp (an AMQP 1.0 implementation: serde_amqp codec, fe2o3-amqp-types, fe2o3-amqp connection/session/link engines on tokio).

You have your OWN scratch git worktree of the repository at {wt} (detached HEAD). Work ONLY inside {wt}. Do not read or write anything under /verif or /repo, and do not look at other directories under /tmp/mut. No network is available; build with `--offline`. ALWAYS set `CARGO_TARGET_DIR={wt}/target` for every cargo command so you do not disturb anyone else.

## The property you must break

Title: {p['title']}

Statement: {p['statement']}

Quantified over: {p['quantifier']['text']}

Files where the relevant code lives (starting points): {', '.join(p['anchors']['files'])}

## Your task

Produce {n} DIFFERENT, realistic changes (each as a separate patch) to the library source that each
  1. still compile (`cd {wt} && CARGO_TARGET_DIR={wt}/target cargo build --workspace --offline`),
  2. still pass the project's existing test suite: `cd {wt} && CARGO_TARGET_DIR={wt}/target cargo test --workspace --no-fail-fast --offline` — NOTE: 13 tests already fail before any change because they need Docker brokers or DNS (tests named `*activemq*`, `*qpid*`, `*rabbitmq*` in `broker_connection_compat` and `link` integration test binaries, and `connection::builder::tests::test_url_name_resolution`); every OTHER test must still pass with your change. Run the suite once on the unchanged tree first to see the baseline, then with each change.
  3. break the property above, in a way that needs something SPECIFIC to manifest: a particular input shape or boundary value, a particular interleaving, a fault at a particular point, a multi-step sequence of operations, or two cooperating sites that each look fine alone. Do NOT make a change that ordinary use (e.g. sending one small message) would expose at once, and do not just delete a feature. Think of plausible refactoring slips, off-by-one at a width boundary, a state flag not reset, a check moved after the action it guards, wrong operand in serial-number arithmetic, etc.
  4. come with a DEMONSTRATION: a small Rust test (put it in a NEW file, e.g. `{wt}/<crate>/tests/mutant_demo_<k>.rs`, or a `#[cfg(test)]` test appended in a new module file) that FAILS with your change applied and PASSES on the unchanged tree. The demonstration must exercise the public API (or crate-internal API if a unit test) and show the property being violated, not merely detect that the code changed. For engine-level properties you can run a client against the in-process listener (`fe2o3_amqp::acceptor`, cargo feature `acceptor`; transactions: feature `transaction`) over `tokio::io::duplex`, e.g. `cargo test -p fe2o3-amqp --features acceptor,transaction --test mutant_demo_1 --offline`.

Edit only library source files under {wt} (not tests that already exist, not Cargo.lock). Keep each change small (a few lines).

## Deliverables (write them under {wt}/MUTANTS/)

For k = 1..{n}:
  - `{wt}/MUTANTS/m<k>/patch.diff` — `git diff` of ONLY the library change (not the demo test), applicable with `git apply` on the unchanged tree,
  - `{wt}/MUTANTS/m<k>/demo.rs` — the demonstration test source, plus in `notes.md` the exact path where it must be placed and the exact cargo command to run it,
  - `{wt}/MUTANTS/m<k>/notes.md` — what the change is, why it breaks the property, what specific condition is needed for it to manifest, and the commands you ran with their outcome (baseline suite still green; demo fails with patch, passes without).
When finished leave the worktree CLEAN of your library edits (`git -C {wt} checkout -- .`; untracked MUTANTS/ and demo files may stay) and delete the build output (`rm -rf {wt}/target`).

Report back a short summary per mutant (file/function changed, trigger condition, demo command). If you could not produce a valid mutant say so honestly rather than delivering one that fails the criteria.""")
