#!/usr/bin/env python3
"""usage: kf_add.py <property> <signature> open|fixed [<commit>] <what...>   - appends one entry to known_findings.json"""
import json, sys
p='/verif/known_findings.json'
k=json.load(open(p))
prop, sig, status = sys.argv[1:4]
e={"property":prop,"signature":sig,"status":status}
if status=='fixed':
    commit=sys.argv[4]; what=' '.join(sys.argv[5:])
    e["commit"]=commit
    e["what"]=f"fixed: property={prop} {commit} {what}"
else:
    e["what"]=' '.join(sys.argv[4:])
k['findings'].append(e)
json.dump(k,open(p,'w'),indent=1,ensure_ascii=False)
print("added",e)
