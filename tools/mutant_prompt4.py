#!/usr/bin/env python3
"""Round-4 prompt for a seeding sub-agent: the round-1 prompt (property text + scratch worktree only) plus a
paragraph that asks for changes whose trigger is a combination, a fault point or an interleaving."""
import subprocess, sys
base = subprocess.run([sys.executable, '/verif/tools/mutant_prompt.py'] + sys.argv[1:], capture_output=True, text=True).stdout
extra = """

## What kind of change is wanted this time

Single-line slips at the most obvious place (an off-by-one in the central comparison, a missing reset of the one obvious flag, saturating vs wrapping at the one obvious counter) have been tried many times. Look further afield:
  * code paths that are only reached in combination: resume/re-attach of a link, a second session or a second link on the same session, the listener side (`acceptor`) rather than the client side, the transactional session (`transaction` feature), handles or channels being re-used after a detach/end, errors returned half way through a multi-step operation;
  * ordering slips between two statements or two tasks (publish before record, answer before flush, wake before store), where only a particular interleaving or a frame arriving at a particular moment shows the difference;
  * clean-up and error paths: what is left behind in maps, buffers, counters and notifiers after a failure, a cancellation, an abort or a peer-initiated teardown, and what the NEXT operation then sees;
  * two places that must agree (encoder and size calculation, client and listener copies of the same logic, the two directions of a mapping) where changing only one of them looks harmless.
Before you settle on a change, read the surrounding module far enough to be sure the existing test-suite does not execute the path with the triggering condition."""
print(base.rstrip() + extra)
