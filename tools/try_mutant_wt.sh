#!/bin/bash
# usage: try_mutant_wt.sh <patch.diff> <check-id>...
# Runs the quick checks against a scratch worktree of /repo HEAD with the patch applied, using a private
# copy of the harness (so /repo itself is never modified and concurrent builds are not disturbed).
P="$(readlink -f "$1")"; shift
M=${MWT:-/tmp/mwt}; WT=$M/repo; H=$M/harness; OUT=$M/out
mkdir -p $M
if [ ! -d "$WT" ]; then git -C /repo worktree add -q --detach "$WT" HEAD || exit 2; fi
git -C "$WT" checkout -q --detach "$(git -C /repo rev-parse HEAD)" 2>/dev/null
git -C "$WT" checkout -q -- . && git -C "$WT" clean -qfd
git -C "$WT" apply "$P" || { echo "patch does not apply"; exit 2; }
rm -rf "$H"; mkdir -p "$H" "$OUT"
rsync -a --exclude target /verif/harness/ "$H/"
for f in ${STUBS:-}; do git -C /verif show ${STUBREV:-9a69882}:harness/vcheck/src/$f > "$H/vcheck/src/$f"; done
sed -i "s#/repo/#$WT/#g; s#\.\./vendor#/verif/vendor#g" "$H/Cargo.toml"
sed -i "s#/verif/target#$M/target#" "$H/.cargo/config.toml"
cp /verif/known_findings.json "$OUT/"
( cd "$H" && cargo build --release --offline -p vcheck 2>&1 | grep -E "^error" -A8 | head -20 )
for id in "$@"; do
  out=$(cd "$OUT" && VERIF_ROOT="$OUT" VERIF_TIER=${TIER:-quick} LD_PRELOAD=/verif/target/libdetrand.so $M/target/release/vcheck $id 2>&1)
  code=$?
  echo "== $id exit=$code $(echo "$out" | grep -c '^VIOLATION') violation line(s)"
  echo "$out" | grep "violation class" | cut -c1-${WIDTH:-260} | head -${SHOW:-4}
done
git -C "$WT" checkout -q -- .
