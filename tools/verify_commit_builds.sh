#!/bin/bash
# builds the COMMITTED harness (git HEAD) in a scratch dir to make sure what is committed compiles
rm -rf /tmp/vc && mkdir -p /tmp/vc && git -C /verif archive HEAD harness | tar -x -C /tmp/vc
sed -i "s#\.\./vendor#/verif/vendor#g" /tmp/vc/harness/Cargo.toml
sed -i "s#/verif/target#/tmp/myh/target#" /tmp/vc/harness/.cargo/config.toml
( cd /tmp/vc/harness && cargo build --release --offline -p vcheck 2>&1 | grep -E "^error" -A8 | head -30 ) ; echo "committed tree build: done"
