#!/bin/bash
# usage: try_mutant.sh <patch.diff> <check-id>...   applies the patch to /repo, runs the quick checks, reverts
P="$1"; shift
cd /repo || exit 2
if [ -n "$(git status --porcelain --untracked-files=no)" ]; then echo "/repo is dirty"; exit 2; fi
git apply "$P" || { echo "patch does not apply"; exit 2; }
for id in "$@"; do
  out=$(cd /verif && VERIF_TIER=${TIER:-quick} ./check $id 2>&1)
  code=$?
  echo "== $id exit=$code $(echo "$out" | grep -c '^VIOLATION') violation line(s)"
  echo "$out" | grep "violation class" | cut -c1-260 | head -${SHOW:-4}
done
git -C /repo checkout -- .
