#!/usr/bin/env python3
"""Generates /verif/MANIFEST.json from the table below (one entry per property of properties.jsonl)."""
import json, os, sys
ROOT = os.path.dirname(os.path.dirname(os.path.abspath(__file__)))

# id -> dict(built, category, technique, text, note, design_ref, engine)
P = {}
def prop(id, built, category, technique, text, note, design_ref, engine, reason=None):
    P[id] = dict(built=built, category=category, technique=technique, text=text, note=note,
                 design_ref=design_ref, engine=engine, reason=reason)

TRUST_B = ("Trusted base: the patched tokio 1.53.1 scheduler hooks (vendor/), the in-memory transport and scripted peer of the harness "
           "(which encodes/decodes performatives with the repository's own codec, itself checked against the independent reference by C03/C05/C20), "
           "virtual time, the getrandom shim. Interleavings are explored at tokio-poll granularity on one thread plus named preempt windows.")
TRUST_A = ("Trusted base: the independent reference codec refamqp (written from the AMQP 1.0 specification, self-tested), the stated value grammar; "
           "values outside the boundary representatives are not covered.")

NOTBUILT = "check not built yet in this round (design in DESIGN.md §3); nothing is claimed for it"

prop("C01", False, "model_checking", "deviation-bounded exhaustive schedule exploration (stateless DFS) of real sender<->listener over a configuration lattice", "", TRUST_B, "§3 C01", "sched", NOTBUILT)
prop("C02", False, "model_checking", "exhaustive history search over peer disposition histories + schedule DFS with preempt point", "", TRUST_B, "§3 C02", "sched", NOTBUILT)
prop("C03", False, "exploration", "bounded-exhaustive enumeration of a value grammar, round-trip oracle", "", TRUST_A, "§3 C03", "enum", NOTBUILT)
prop("C04", False, "exploration", "exhaustive enumeration of short byte strings and structure-aware corruptions, totality oracle", "", TRUST_A, "§3 C04", "enum", NOTBUILT)
prop("C05", False, "exploration", "bounded-exhaustive enumeration of values x encoding variants against an independent reference codec", "", TRUST_A, "§3 C05", "enum", NOTBUILT)
prop("C06", False, "exploration", "exhaustive enumeration of performatives x payload lengths x stream partitions over the real Transport", "", TRUST_A, "§3 C06", "enum", NOTBUILT)
prop("C07", False, "model_checking", "exhaustive history search (explicit-state over event histories, re-executed on the real session) with a wire monitor", "", TRUST_B, "§3 C07", "sched", NOTBUILT)
prop("C08", False, "model_checking", "exhaustive history search + schedule DFS with preempt window on the real sender link", "", TRUST_B, "§3 C08", "sched", NOTBUILT)
prop("C09", False, "model_checking", "exhaustive history search over transfer/dispose histories on the real receiver link", "", TRUST_B, "§3 C09", "sched", NOTBUILT)
prop("C10", False, "exploration", "exhaustive enumeration of frame partitions of a delivery against the real receiver", "", TRUST_B, "§3 C10", "sched", NOTBUILT)
prop("C11", False, "model_checking", "exhaustive history search over begin/attach/detach/send histories with identifier monitors", "", TRUST_B, "§3 C11", "sched", NOTBUILT)
prop("C12", False, "model_checking", "exhaustive history search over local ops x peer behaviours with a connection trace automaton", "", TRUST_B, "§3 C12", "sched", NOTBUILT)
prop("C13", False, "model_checking", "exhaustive history search over session/link lifecycle events with per-channel/handle trace automata", "", TRUST_B, "§3 C13", "sched", NOTBUILT)
prop("C14", False, "fault_enumeration", "fault enumeration: every transport cut point x fault mode, pending-operation x peer-fault product, peer faults behind every write of a reference conversation, each also under deviation-bounded schedule exploration", "", TRUST_B, "§3 C14", "sched", NOTBUILT)
prop("C15", False, "exploration", "exhaustive enumeration of malformed frames and a catalogue of violating performatives x endpoint states", "", TRUST_B, "§3 C15", "sched", NOTBUILT)
prop("C16", False, "fault_enumeration", "enumeration of every cancel point (drop after k-th poll) of send/recv futures", "", TRUST_B, "§3 C16", "sched", NOTBUILT)
prop("C17", False, "model_checking", "exhaustive enumeration of channel-max pairs x begin/end histories and idle-timeout traffic patterns in virtual time", "", TRUST_B, "§3 C17", "sched", NOTBUILT)
prop("C18", False, "model_checking", "exhaustive history search over transaction events against a reference model", "", TRUST_B, "§3 C18", "sched", NOTBUILT)
prop("C19", False, "exploration", "exhaustive enumeration of SASL client/server behaviours up to a frame bound", "", TRUST_B, "§3 C19", "sched", NOTBUILT)
prop("C20", False, "exploration", "bounded-exhaustive enumeration of values x reader chunkings, agreement oracle between entry points", "", TRUST_A, "§3 C20", "enum", NOTBUILT)

# ---- overrides for built checks are applied from built.json (kept next to this file) ----
built_path = os.path.join(ROOT, "tools", "built.json")
if os.path.exists(built_path):
    for id, o in json.load(open(built_path)).items():
        P[id].update(o)
        P[id]["built"] = True

hooks_commits = []
hp = os.path.join(ROOT, "tools", "hook_commits.txt")
if os.path.exists(hp):
    hooks_commits = [l.strip() for l in open(hp) if l.strip()]

m = {
    "version": 1,
    "setup_cmd": "./setup.sh",
    "hooks": {
        "guard": "--cfg fe2o3_amqp_verif",
        "enable": "rustflags in /verif/harness/.cargo/config.toml ([build] rustflags = [\"--cfg\", \"fe2o3_amqp_verif\"]); the harness workspace path-depends on /repo's crates and builds them into /verif/target, so /repo's own target dir and the guard-off build are untouched",
        "baseline_off_cmd": "python3 /verif/tools/baseline_off.py /repo",
        "source_commits": hooks_commits,
        "add_only": True,
    },
    "engines": [
        {"name": "enum", "path": "harness/vcheck/src (c03 c04 c05 c06 c20) + harness/refamqp", "serves_properties": [k for k, v in P.items() if v["engine"] == "enum"],
         "kind_free_text": "bounded-exhaustive input enumeration of the real codec/transport against an independent reference model"},
        {"name": "sched", "path": "harness/vlib (tape, runner, explore, vpipe, peer) + vendor/tokio-1.53.1-verif", "serves_properties": [k for k, v in P.items() if v["engine"] == "sched"],
         "kind_free_text": "stateless model checking of the real connection/session/link engines on a patched current-thread tokio runtime: choice tape, deviation-bounded DFS over schedules, exhaustive event-history search, fault and cancel point enumeration"},
    ],
    "checks": [],
    "not_applicable": [],
    "notes": "All checks go through ./check <id>; VERIF_TIER / --tier selects quick|thorough, VERIF_SEED permutes exploration order only, VERIF_BUDGET_S caps wall time (completed bound is reported). Known findings: known_findings.json.",
}
for id in sorted(P):
    v = P[id]
    if v["built"]:
        m["checks"].append({
            "property_id": id,
            "quick_cmd": f"./check {id} --tier quick",
            "thorough_cmd": f"./check {id} --tier thorough",
            "evidence_file": f"/verif/evidence/{id}.json",
            "replay_cmd_template": f"./check {id} --replay {{path}}",
            "engine": v["engine"],
            "level_claimed": {"category": v["category"], "text": v["text"], "design_ref": v["design_ref"]},
            "level_note": v["note"],
            "technique": v["technique"],
        })
    else:
        m["not_applicable"].append({"property_id": id, "reason": v["reason"]})
json.dump(m, open(os.path.join(ROOT, "MANIFEST.json"), "w"), indent=1)
print("checks:", [c["property_id"] for c in m["checks"]])
print("not_applicable:", [c["property_id"] for c in m["not_applicable"]])
