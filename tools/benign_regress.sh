#!/bin/bash
# Re-runs every benign variant (benign/<id>-v<k>/patch.diff) against the quick checks listed for it in benign/README.md,
# in a scratch worktree (never /repo).  Writes benign/REGRESS.md; every line must say exit=0 for every check.
# usage: MWT=/tmp/mwt2 tools/benign_regress.sh [name-glob]
cd "$(dirname "$0")/.." || exit 2
OUT=benign/REGRESS.md
echo "# benign variants re-run against the quick checks ($(date -u +%F' '%R) UTC, /repo $(git -C /repo rev-parse --short HEAD))" > $OUT
echo "" >> $OUT
echo "| variant | checks run | result |" >> $OUT
echo "|---|---|---|" >> $OUT
for d in benign/${1:-*}/; do
  n=$(basename $d)
  [ -f $d/patch.diff ] || continue
  ids=$(grep "^| $n |" benign/README.md | head -1 | awk -F'|' '{print $4}')
  [ -z "$ids" ] && ids=${n%%-*}
  res=$(tools/try_mutant_wt.sh $d/patch.diff $ids 2>&1 | grep "^==\|does not apply" | sed 's/== //' | tr '\n' ';')
  echo "| $n | $ids | $res |" >> $OUT
  echo "$n: $res"
done
