#!/bin/bash
# usage: mech_run.sh <dir with nnn.diff + index.tsv> <lane> <lanes>   - runs every mutant whose number % lanes == lane
D=$1; LANE=$2; LANES=$3
export MWT=/tmp/mwt-mech$LANE
while IFS=$'\t' read -r n loc op checks line; do
  if [ $((10#$n % LANES)) -ne $LANE ]; then continue; fi
  ids=$(echo $checks | cut -d' ' -f1-3)
  res=$(SHOW=0 /verif/tools/try_mutant_wt.sh $D/$n.diff $ids 2>&1 | grep "^==\|^error\|does not apply" | sed 's/== //' | tr '\n' ';')
  echo -e "$n\t$loc\t$op\t$res\t$line" >> $D/results_$LANE.tsv
done < $D/index.tsv
