#!/bin/bash
# private build of the harness with other agents' in-progress check files replaced by their committed versions
# usage: mybuild.sh [files to take from HEAD...]; then run /tmp/myh/run <ID> [args]
H=/tmp/myh/harness
mkdir -p /tmp/myh/out
rsync -rlpc --delete --exclude target /verif/harness/ "$H/"
for f in "$@"; do git -C /verif show 9a69882:harness/vcheck/src/$f > "$H/vcheck/src/$f"; done
sed -i "s#\.\./vendor#/verif/vendor#g" "$H/Cargo.toml"
sed -i "s#/verif/target#/tmp/myh/target#" "$H/.cargo/config.toml"
cp /verif/known_findings.json /tmp/myh/out/
( cd "$H" && cargo build --release --offline -p vcheck 2>&1 | grep -E "^error" -A14 | head -${LINES_ERR:-60} )
cat > /tmp/myh/run <<'EOS'
#!/bin/bash
cp /verif/known_findings.json /tmp/myh/out/
cd /tmp/myh/out && VERIF_ROOT=/tmp/myh/out LD_PRELOAD=/verif/target/libdetrand.so /tmp/myh/target/release/vcheck "$@"
EOS
chmod +x /tmp/myh/run
