#!/usr/bin/env python3
"""Run the repository's own test suite with the verification guard OFF and compare, by test name,
with the stable passes recorded in /root/.vp/BASELINE.json.  Exit 0 iff every stable-pass test passed."""
import json, os, re, subprocess, sys

repo = sys.argv[1] if len(sys.argv) > 1 else "/repo"
base = json.load(open("/root/.vp/BASELINE.json"))
stable = set(base["stable_pass"])
env = dict(os.environ)
env.pop("RUSTFLAGS", None)
env["CARGO_NET_OFFLINE"] = "true"
p = subprocess.run(
    ["cargo", "test", "--workspace", "--no-fail-fast", "--offline"],
    cwd=repo, env=env, stdout=subprocess.PIPE, stderr=subprocess.STDOUT, text=True)
out = p.stdout
# cargo prints "Running unittests src/lib.rs (target/debug/deps/<crate>-<hash>)" / "Running tests/x.rs (...)" / "Doc-tests <crate>"
passed = set()
crate = None
kind = None
for line in out.splitlines():
    m = re.match(r"\s*Running (unittests )?(\S+) \((\S+)\)", line)
    if m:
        binpath = m.group(3)
        name = os.path.basename(binpath)
        name = re.sub(r"-[0-9a-f]{16}$", "", name)
        is_unit = bool(m.group(1))
        crate = name.replace("_", "-") if is_unit else None
        kind = (is_unit, name, m.group(2))
        continue
    if line.strip().startswith("Doc-tests"):
        kind = None
        continue
    m = re.match(r"test (\S+) \.\.\. ok", line)
    if m and kind:
        is_unit, name, src = kind
        t = m.group(1)
        if is_unit:
            # package name: crate dir of src file
            passed.add((name, t))
        else:
            passed.add((name, t))
# map to nextest-style ids "<package>::<binary>::<test>" loosely: try both forms
def ids(name, t):
    n1 = name
    n2 = name.replace("_", "-")
    return {f"{n1}::{t}", f"{n2}::{t}"}
got = set()
for (name, t) in passed:
    got |= ids(name, t)
# integration tests are "<package>::<testbinary>::<test>"; we do not know the package from the binary name,
# so also accept any stable id whose suffix "<testbinary>::<test>" matches
suffixes = {f"{name}::{t}" for (name, t) in passed}
missing = []
for s in sorted(stable):
    if s in got:
        continue
    parts = s.split("::")
    if len(parts) >= 3 and "::".join(parts[1:]) in suffixes:
        continue
    missing.append(s)
print(f"baseline: {len(stable) - len(missing)}/{len(stable)} stable-pass tests passed (guard off)")
if missing:
    print("MISSING/FAILED:")
    for m in missing[:50]:
        print("  ", m)
    sys.exit(1)
sys.exit(0)
