#!/bin/bash
# usage: seed_confirm.sh <ID> <k> [features]   - confirm mutant k of the sub-agent's worktree /tmp/mut/<ID> at /repo's HEAD
ID=$1; K=$2; FEAT=${3:-acceptor,transaction}
WT=/tmp/mut/$ID
git -C $WT checkout -q -- . ; git -C $WT checkout -q --detach $(git -C /repo rev-parse HEAD) || exit 2
DEMO=mutant_demo_$K
/verif/tools/confirm_mutant.sh $WT $WT/MUTANTS/m$K fe2o3-amqp $DEMO --features $FEAT
