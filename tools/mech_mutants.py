#!/usr/bin/env python3
"""Mechanical single-token mutants of the library's core files (a systematic complement to the changes written by
sub-agents): comparison operators, wrapping/saturating arithmetic, boolean literals in assignments.
usage: mech_mutants.py <outdir> [stride]   - writes <outdir>/<nnn>.diff (+ index.tsv); the tree is /repo HEAD (read only)"""
import os, re, subprocess, sys, tempfile
out = sys.argv[1]; stride = int(sys.argv[2]) if len(sys.argv) > 2 else 1
os.makedirs(out, exist_ok=True)
FILES = {
 "fe2o3-amqp/src/session/mod.rs": "C07 C11 C02 C13 C01",
 "fe2o3-amqp/src/session/engine.rs": "C13 C14 C07 C12",
 "fe2o3-amqp/src/link/state.rs": "C08 C09 C01",
 "fe2o3-amqp/src/link/sender_link.rs": "C08 C02 C16 C01 C11",
 "fe2o3-amqp/src/link/receiver_link.rs": "C09 C02 C10 C01",
 "fe2o3-amqp/src/link/receiver.rs": "C09 C10 C16 C02 C01",
 "fe2o3-amqp/src/link/mod.rs": "C02 C09 C13 C14 C01",
 "fe2o3-amqp/src/link/shared_inner.rs": "C13 C14",
 "fe2o3-amqp/src/connection/engine.rs": "C12 C14 C17 C15",
 "fe2o3-amqp/src/connection/mod.rs": "C12 C17 C11 C15",
 "fe2o3-amqp/src/frames/amqp.rs": "C06 C15 C01",
 "fe2o3-amqp/src/transport/mod.rs": "C06 C17 C15 C12",
 "fe2o3-amqp/src/acceptor/session.rs": "C07 C08 C11 C15",
 "fe2o3-amqp/src/transaction/manager.rs": "C18",
 "fe2o3-amqp/src/transaction/session.rs": "C18 C07",
}
OPS = [
 (r"(?<![<>=!-])<=(?!=)", "<"), (r"(?<![<>=!-])>=(?!=)", ">"),
 (r"(?<![<>=!&|-])<(?![<=])\s", "<= "), (r"(?<![<>=!&|-])\s>(?![>=])\s", " >= "),
 (r"==", "!="), (r"!=", "=="),
 (r"wrapping_add", "saturating_add"), (r"wrapping_sub", "saturating_sub"),
 (r"saturating_sub", "wrapping_sub"), (r"saturating_add", "wrapping_add"),
 (r"= true;", "= false;"), (r"= false;", "= true;"),
 (r"\+ 1\b", "+ 0"), (r"- 1\b", "- 0"),
]
def code_lines(src):
    """indices of lines that are code: outside #[cfg(test)] mod tests, comments, doc, attributes, generics-heavy lines"""
    lines = src.split("\n"); ok = []
    intest = False
    for i, l in enumerate(lines):
        st = l.strip()
        if st.startswith("#[cfg(test)]"): intest = True
        if intest: continue
        if st.startswith("//") or st.startswith("#[") or st.startswith("use ") or st.startswith("///"): continue
        if "tracing::" in l or "log::" in l or "debug!" in l: continue
        ok.append(i)
    return lines, ok
n = 0; k = 0
idx = open(os.path.join(out, "index.tsv"), "w")
for f, checks in FILES.items():
    src = open(os.path.join("/repo", f)).read()
    lines, ok = code_lines(src)
    for i in ok:
        l = lines[i]
        code = l.split("//")[0]
        for pat, rep in OPS:
            for m in re.finditer(pat, code):
                # skip generics / closures / match arms / lifetimes
                if pat.startswith(r"(?<![<>=!&|-])<(") and (re.search(r"[A-Za-z_>]\s*<[A-Z&']", code) or "->" in code or "::<" in code): continue
                if pat.startswith(r"(?<![<>=!&|-])\s>(") and ("=>" in code or "->" in code or re.search(r"<[^<>]*>", code)): continue
                if "=>" in code and pat in ("==", "!="): pass
                k += 1
                if k % stride: continue
                new = code[:m.start()] + re.sub(pat, rep, code[m.start():m.end()]) + code[m.end():] + l[len(code):]
                mutated = lines[:i] + [new] + lines[i+1:]
                with tempfile.NamedTemporaryFile("w", suffix=".rs", delete=False) as t:
                    t.write("\n".join(mutated)); tn = t.name
                d = subprocess.run(["diff", "-u", "--label", "a/"+f, "--label", "b/"+f, os.path.join("/repo", f), tn], capture_output=True, text=True).stdout
                os.unlink(tn)
                if not d: continue
                n += 1
                open(os.path.join(out, f"{n:03d}.diff"), "w").write(d)
                idx.write(f"{n:03d}\t{f}:{i+1}\t{pat} -> {rep}\t{checks}\t{l.strip()[:100]}\n")
idx.close()
print(n, "mutants of", k, "candidate sites")
