#!/bin/bash
# usage: regress_lane.sh <lane> <lanes> <outfile>  - re-runs every seeded change no. k with k % lanes == lane against the checks recorded as catching it
LANE=$1; LANES=$2; OUT=$3
cd /verif || exit 2
export MWT=/tmp/mwt-reg$LANE
i=0
for d in seeded/C*/; do
  n=$(basename $d)
  [ -f $d/meta.json ] || continue
  i=$((i+1)); [ $((i % LANES)) -ne $LANE ] && continue
  ids=$(python3 -c "import json;m=json.load(open('$d/meta.json'));print(' '.join(m['detected_by_quick_checks']) or m['property'])")
  res=$(SHOW=0 tools/try_mutant_wt.sh $d/patch.diff $ids 2>&1 | grep "^==\|does not apply" | sed 's/== //' | tr '\n' ';')
  echo "| $n | $ids | $res |" >> $OUT
done
