#!/usr/bin/env python3
"""Prints the prompt for a sub-agent that writes BEHAVIOUR-CHANGING BUT PROPERTY-PRESERVING variants of the library:
used to test that the checks raise no alarm on code where the property holds.  Only the property text and a worktree."""
import json, sys
pid = sys.argv[1]
wt = sys.argv[2]
n = sys.argv[3] if len(sys.argv) > 3 else "2"
p = [json.loads(l) for l in open('/verif/properties.jsonl') if json.loads(l)['id'] == pid][0]
print(f"""You are helping test a verification effort for the Rust project minghuaw/fe2o3-amqp (an AMQP 1.0 implementation: serde_amqp codec, fe2o3-amqp-types, fe2o3-amqp connection/session/link engines on tokio). Verification checks must never raise an alarm on code where the property below HOLDS. Your job is to write alternative implementations that are observably DIFFERENT from the current code but still satisfy the property, so that over-strict checks can be found.

You have your OWN scratch git worktree of the repository at {wt} (detached HEAD). Work ONLY inside {wt}. Do not read or write anything under /verif or /repo, and do not look at other directories under /tmp. No network is available; build with `--offline`. ALWAYS set `CARGO_TARGET_DIR={wt}/target` for every cargo command.

## The property that must keep holding

Title: {p['title']}

Statement: {p['statement']}

Quantified over: {p['quantifier']['text']}

Files where the relevant code lives (starting points): {', '.join(p['anchors']['files'])}

## Your task

Produce {n} DIFFERENT changes (each as a separate patch) to the library source that each
  1. still compile (`cd {wt} && CARGO_TARGET_DIR={wt}/target cargo build --workspace --offline`),
  2. still pass the project's existing test suite: `cd {wt} && CARGO_TARGET_DIR={wt}/target cargo test --workspace --no-fail-fast --offline` (16 tests already fail before any change: 12 broker tests `*activemq*|*qpid*|*rabbitmq*`, `connection::builder::tests::test_url_name_resolution`, and 3 doctests: fe2o3-amqp/src/lib.rs line 127, serde_amqp_derive/src/lib.rs lines 53 and 116; every other test must still pass),
  3. CHANGE what an outside observer can see in the area the property talks about (bytes on the wire, order or number of frames, timing of flows/dispositions, which of several permitted encodings is chosen, which error variant or message is returned, internal buffer sizes or batching, order of independent operations, when credit/window is replenished ...) - NOT a pure rename or comment change,
  4. and yet KEEP the property true for every case it quantifies over. Use only freedom that the statement (and the AMQP 1.0 specification) clearly leaves to an implementation. Explain, for each change, exactly why the property still holds - be conservative: if in doubt whether the statement allows it, do not use it.

Examples of the kind of freedom meant (pick what fits THIS property): choosing a wider but valid encoding, sending a flow frame more eagerly or splitting a burst into more frames than necessary (still within limits), answering in a different but equally valid order, returning a different error variant that still names the right scope and carries the peer's condition, using a different internal channel capacity, replenishing credit at a different threshold that still never stalls a conforming peer, polling sources in a different order.

Edit only library source files under {wt} (not existing tests, not Cargo.lock). Keep each change small (a few lines to a few dozen).

## Deliverables (under {wt}/VARIANTS/)

For k = 1..{n}: `{wt}/VARIANTS/v<k>/patch.diff` (`git diff` of the library change, applicable with `git apply` on the unchanged tree) and `{wt}/VARIANTS/v<k>/notes.md` (what changes observably, why the property still holds for every quantified case, commands run and their outcome). When finished leave the worktree clean of library edits (`git -C {wt} checkout -- .`) and delete the build output (`rm -rf {wt}/target`).

Report back a short summary per variant. If you cannot find a change that is both observable and clearly allowed, say so rather than delivering a doubtful one.""")
