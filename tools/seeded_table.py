#!/usr/bin/env python3
"""Print the markdown table of seeded changes (DESIGN.md 10.4 / 10.4c) from seeded/*/meta.json.
usage: tools/seeded_table.py [m1 m2 | m3 m4]"""
import glob, json, os, sys
want = tuple(sys.argv[1:]) or ("m1", "m2", "m3", "m4")
root = os.path.join(os.path.dirname(os.path.abspath(__file__)), "..", "seeded")
print("| seeded change | what it does | needs | caught by (quick) |")
print("|---|---|---|---|")
for p in sorted(glob.glob(os.path.join(root, "*", "meta.json"))):
    name = os.path.basename(os.path.dirname(p))
    if not name.endswith(want):
        continue
    m = json.load(open(p))
    cut = lambda s: (s or "").replace("|", "/").replace("\n", " ")[:120]
    by = ",".join(m.get("detected_by_quick_checks") or []) or "-"
    if m.get("strengthened") or "after strengthening" in json.dumps(m):
        by += " (after strengthening)"
    print(f"| {name} | {cut(m.get('change'))} | {cut(m.get('needs_to_manifest'))} | {by} |")
