#!/bin/bash
# usage: confirm_mutant.sh <worktree> <mutant-dir> <crate> <demo-test-name> [cargo feature flags...]
# Confirms in the scratch worktree: patch applies, workspace builds, baseline suite still passes,
# demo fails with the patch and passes without it.  Prints one summary line.
WT="$1"; M="$2"; CRATE="$3"; DEMO="$4"; shift 4
export CARGO_TARGET_DIR="$WT/target" CARGO_NET_OFFLINE=true
cd "$WT" || exit 2
git checkout -q -- . 
cp "$M/demo.rs" "$WT/$CRATE/tests/$DEMO.rs" 2>/dev/null
run_demo() { cargo test -p "$CRATE" --test "$DEMO" --offline "$@" >"$WT/demo.log" 2>&1; echo $?; }
without=$(run_demo "$@")
git apply "$M/patch.diff" || { echo "RESULT $M patch-does-not-apply"; exit 1; }
with=$(run_demo "$@")
base=$(python3 /verif/tools/baseline_off.py "$WT" 2>&1 | tail -1)
git checkout -q -- .
echo "RESULT $M demo_without_patch_exit=$without demo_with_patch_exit=$with baseline: $base"
