#!/usr/bin/env python3
"""usage: seed_detect.py <seeded-name> <checks csv> [note]  - records which quick checks catch a seeded change now"""
import json, sys
p=f"/verif/seeded/{sys.argv[1]}/meta.json"
m=json.load(open(p))
m["detected_by_quick_checks"]=sys.argv[2].split(",")
if len(sys.argv)>3:
    m["notes"]=(m.get("notes","")+"; " if m.get("notes") else "")+sys.argv[3]
json.dump(m,open(p,"w"),indent=1,ensure_ascii=False)
print(p, m["detected_by_quick_checks"])
