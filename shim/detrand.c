/* LD_PRELOAD shim: make OS randomness deterministic per thread.
 * Every thread starts with the same counter, so a fresh thread always sees the same
 * "random" byte stream (std's RandomState keys, uuid v4, rand's OsRng seeds). */
#define _GNU_SOURCE
#include <stddef.h>
#include <stdint.h>
#include <sys/types.h>
#include <stdarg.h>
#include <unistd.h>
#include <sys/syscall.h>
#include <dlfcn.h>

static __thread uint64_t ctr = 0x9e3779b97f4a7c15ULL;

static void fill(unsigned char *p, size_t n) {
    for (size_t i = 0; i < n; i++) {
        /* splitmix64 */
        uint64_t z = (ctr += 0x9e3779b97f4a7c15ULL);
        z = (z ^ (z >> 30)) * 0xbf58476d1ce4e5b9ULL;
        z = (z ^ (z >> 27)) * 0x94d049bb133111ebULL;
        z = z ^ (z >> 31);
        p[i] = (unsigned char)z;
    }
}

ssize_t getrandom(void *buf, size_t buflen, unsigned int flags) {
    (void)flags;
    fill((unsigned char *)buf, buflen);
    return (ssize_t)buflen;
}

int getentropy(void *buf, size_t buflen) {
    fill((unsigned char *)buf, buflen);
    return 0;
}

long syscall(long number, ...) {
    va_list ap;
    va_start(ap, number);
    long a = va_arg(ap, long), b = va_arg(ap, long), c = va_arg(ap, long);
    long d = va_arg(ap, long), e = va_arg(ap, long), f = va_arg(ap, long);
    va_end(ap);
    if (number == SYS_getrandom) {
        fill((unsigned char *)a, (size_t)b);
        return b;
    }
    static long (*real)(long, ...) = 0;
    if (!real) real = (long (*)(long, ...))dlsym(RTLD_NEXT, "syscall");
    return real(number, a, b, c, d, e, f);
}
